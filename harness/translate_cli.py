"""Static-data translator for C11 / C12 (DESIGN 4.2): regenerates
lean/SRVerif/Generated/Registry.lean from the source of /repo with `ast`.

Extracted: the member names of NodeEvent / EdgeEvent, get_default_cost(), and from
cli/reconcile.py the `algorithms` table with the parameter annotations of each algorithm
function (resolved through the module's `from ... import ...` statements), `cost_events`,
the choices of `--solutions`, and the members of RetentionPolicy.

Hook into harness/translate.py:
    from harness.translate_cli import regenerate_cli
    ... in regenerate(prop):  out += regenerate_cli(prop)
"""
import ast
from pathlib import Path

from harness.common import LEAN, REPO

PROPS = ("C11", "C12")
SRC = REPO / "src" / "superrec2"
TARGET = LEAN / "SRVerif" / "Generated" / "Registry.lean"


def _parse(path):
    return ast.parse(Path(path).read_text(), filename=str(path))


def _enum_members(tree, cls):
    for node in tree.body:
        if isinstance(node, ast.ClassDef) and node.name == cls:
            out = []
            for st in node.body:
                if isinstance(st, ast.Assign):
                    for t in st.targets:
                        if isinstance(t, ast.Name) and not t.id.startswith("_"):
                            out.append(t.id)
            return out
    raise ValueError(f"class {cls} not found")


def _attr(node):
    """`NodeEvent.SPECIATION` -> ("NodeEvent", "SPECIATION")."""
    if isinstance(node, ast.Attribute) and isinstance(node.value, ast.Name):
        return node.value.id, node.attr
    raise ValueError("expected Enum.MEMBER, got " + ast.dump(node))


def _function(tree, name):
    for node in tree.body:
        if isinstance(node, ast.FunctionDef) and node.name == name:
            return node
    raise ValueError(f"function {name} not found")


def _module_assign(tree, name):
    for node in tree.body:
        if isinstance(node, ast.Assign) and any(isinstance(t, ast.Name) and t.id == name for t in node.targets):
            return node.value
    raise ValueError(f"assignment to {name} not found")


def _imports(tree):
    """name -> module path (absolute imports of superrec2 only)."""
    out = {}
    for node in tree.body:
        if isinstance(node, ast.ImportFrom) and node.level == 0 and node.module:
            for a in node.names:
                out[a.asname or a.name] = node.module
    return out


def _module_file(mod):
    parts = mod.split(".")
    assert parts[0] == "superrec2", mod
    return SRC.joinpath(*parts[1:]).with_suffix(".py")


def extract():
    model = _parse(SRC / "model" / "reconciliation.py")
    cli = _parse(SRC / "cli" / "reconcile.py")
    dp = _parse(SRC / "utils" / "dynamic_programming.py")
    data = {
        "nodeEventNames": _enum_members(model, "NodeEvent"),
        "edgeEventNames": _enum_members(model, "EdgeEvent"),
        "retentionPolicies": _enum_members(dp, "RetentionPolicy"),
    }
    # get_default_cost: `return {Enum.MEMBER: int, ...}`
    ret = [n for n in ast.walk(_function(model, "get_default_cost")) if isinstance(n, ast.Return)][0].value
    data["defaultCost"] = [(*_attr(k), ast.literal_eval(v)) for k, v in zip(ret.keys, ret.values)]
    # cost_events: {Enum.MEMBER: ("spe", "a speciation"), ...}
    ce = _module_assign(cli, "cost_events")
    data["costEvents"] = [(*_attr(k), ast.literal_eval(v)[0]) for k, v in zip(ce.keys, ce.values)]
    # algorithms: {"name": function, ...} with the annotations of the function's parameters
    imports = _imports(cli)
    algos = []
    al = _module_assign(cli, "algorithms")
    for k, v in zip(al.keys, al.values):
        fname = v.id
        fdef = _function(_parse(_module_file(imports[fname])), fname)
        args = fdef.args
        if args.vararg or args.kwarg or args.kwonlyargs or args.posonlyargs:
            raise ValueError(f"{fname}: unsupported signature")
        anns = [ast.unparse(a.annotation) if a.annotation is not None else "" for a in args.args]
        algos.append((ast.literal_eval(k), anns[0] if anns else "", anns[1:]))
    data["algorithms"] = algos
    # --solutions choices
    choices = None
    for node in ast.walk(_function(cli, "add_args")):
        if (isinstance(node, ast.Call) and node.args and isinstance(node.args[0], ast.Constant)
                and node.args[0].value == "--solutions"):
            for kw in node.keywords:
                if kw.arg == "choices":
                    choices = list(ast.literal_eval(kw.value))
    if choices is None:
        raise ValueError("--solutions choices not found")
    data["solutionChoices"] = choices
    return data


def _s(x):
    return '"' + x.replace("\\", "\\\\").replace('"', '\\"') + '"'


def _strs(xs):
    return "[" + ", ".join(_s(x) for x in xs) + "]"


def render(d):
    dc = ", ".join(f"({_s(c)}, {_s(m)}, {int(v)})" for c, m, v in d["defaultCost"])
    ce = ", ".join(f"({_s(c)}, {_s(m)}, {_s(o)})" for c, m, o in d["costEvents"])
    al = ", ".join(f"({_s(n)}, {_s(a)}, {_strs(r)})" for n, a, r in d["algorithms"])
    return f"""/-
  GENERATED by harness/translate_cli.py from /repo/src/superrec2/cli/reconcile.py and
  /repo/src/superrec2/model/reconciliation.py -- do not edit by hand.
-/
namespace SR.Gen

/-- `NodeEvent.__members__` in definition order. -/
def nodeEventNames : List String := {_strs(d["nodeEventNames"])}

/-- `EdgeEvent.__members__` in definition order. -/
def edgeEventNames : List String := {_strs(d["edgeEventNames"])}

/-- `get_default_cost()`: (enum class, member name, value) in dict order. -/
def defaultCost : List (String × String × Nat) := [{dc}]

/-- `cost_events` of cli/reconcile.py: (enum class, member name, option suffix). -/
def costEvents : List (String × String × String) := [{ce}]

/-- `algorithms` of cli/reconcile.py: (name, annotation of the first parameter,
    annotations of the remaining parameters). -/
def algorithms : List (String × String × List String) := [{al}]

/-- Choices of `--solutions`. -/
def solutionChoices : List String := {_strs(d["solutionChoices"])}

/-- Members of `RetentionPolicy`. -/
def retentionPolicies : List String := {_strs(d["retentionPolicies"])}

end SR.Gen
"""


def regenerate_cli(prop):
    """Rewrite Generated/Registry.lean if the source says something else now."""
    if prop.upper() not in PROPS:
        return []
    text = render(extract())
    if not TARGET.exists() or TARGET.read_text() != text:
        TARGET.parent.mkdir(parents=True, exist_ok=True)
        TARGET.write_text(text)
    return [str(TARGET.relative_to(LEAN.parent))]
