"""Type-directed generators for canonical cases (see harness/sr.py)."""
import itertools


def shapes(n):
    """All binary tree shapes with n leaves (leaf = [])."""
    if n == 1:
        return [[]]
    out = []
    for k in range(1, n):
        for l in shapes(k):
            for r in shapes(n - k):
                out.append([l, r])
    return out


def rand_shape(rng, n, style=None):
    """Random binary shape with n leaves; styles: None=random split, 'cat'=caterpillar, 'bal'=balanced."""
    if n == 1:
        return []
    if style == "cat":
        k = 1 if rng.random() < 0.5 else n - 1
    elif style == "bal":
        k = n // 2
    else:
        k = rng.randint(1, n - 1)
    return [rand_shape(rng, k, style), rand_shape(rng, n - k, style)]


def leaf_paths(S, p=""):
    if not S:
        return [p]
    out = []
    for i, c in enumerate(S):
        out += leaf_paths(c, p + str(i))
    return out


def all_paths(S, p=""):
    out = [p]
    for i, c in enumerate(S):
        out += all_paths(c, p + str(i))
    return out


def n_leaves(S):
    return len(leaf_paths(S))


def fill_object(shape, leaves_iter):
    """Turn a shape into an object tree by consuming leaf dicts from an iterator."""
    if not shape:
        return next(leaves_iter)
    return [fill_object(c, leaves_iter) for c in shape]


def coherent(c, plain=False):
    spe, dup, fl, sl = c["spe"], c["dup"], c["floss"], c.get("sloss", 0)
    return spe <= dup + 2 * fl if plain else spe + 2 * sl <= dup + 2 * fl


def rand_costs(rng, plain=False, hi=3, coherent_only=True):
    """Cost vectors over a small grid, boundary of the coherent region and zeros over-sampled."""
    while True:
        mode = rng.random()
        if mode < 0.15:
            c = {"spe": 0, "dup": 1, "hgt": 1, "floss": 1, "sloss": 1}
        elif mode < 0.35:  # many ties
            c = {k: rng.choice([0, 0, 1]) for k in ("spe", "dup", "floss", "sloss")}
            c["hgt"] = rng.choice([0, 1, "inf"])
        elif mode < 0.55:  # boundary spe + 2 sloss = dup + 2 floss
            dup, fl, sl = rng.randint(0, hi), rng.randint(0, hi), rng.randint(0, hi)
            spe = dup + 2 * fl - (0 if plain else 2 * sl)
            if spe < 0:
                continue
            c = {"spe": spe, "dup": dup, "floss": fl, "sloss": sl,
                 "hgt": rng.choice([0, 1, 2, 3, 5, "inf"])}
        else:
            c = {k: rng.randint(0, hi) for k in ("spe", "dup", "floss", "sloss")}
            c["hgt"] = rng.choice([0, 1, 2, 3, 5, "inf", "inf"])
        if plain:
            c["sloss"] = c.get("sloss", 1)
        if not coherent_only or coherent(c, plain):
            return c


def rand_species_assignment(rng, S, n):
    """Leaf species for n object leaves: uniform, concentrated in one species, or spread."""
    lv = leaf_paths(S)
    mode = rng.random()
    if mode < 0.15:
        s = rng.choice(lv)
        return [s] * n
    if mode < 0.3 and len(lv) > 1:
        sub = rng.sample(lv, max(1, len(lv) // 2))
        return [rng.choice(sub) for _ in range(n)]
    return [rng.choice(lv) for _ in range(n)]


def rand_syntenies(rng, n, nfam, consistent=None, unordered=False):
    """Non-empty family lists with distinct families for n leaves.

    consistent=True: all are subsequences of one random order; False: free orders (may be cyclic)."""
    if consistent is None:
        consistent = rng.random() < 0.8
    order = list(range(nfam))
    rng.shuffle(order)
    out = []
    for _ in range(n):
        k = rng.randint(1, nfam)
        fams = rng.sample(range(nfam), k)
        if unordered:
            fams = sorted(fams)
        elif consistent:
            fams = [f for f in order if f in fams]
        else:
            rng.shuffle(fams)
        out.append(fams)
    # make sure every family id < nfam that is used is compact (ids need not all occur)
    return out


def rand_case(rng, max_o=5, max_s=5, nfam=0, plain=True, unordered=False, style=None, costs=None):
    # sizes weighted towards the top of the range (weight = size): half of a uniform draw would go to 1- and
    # 2-leaf object trees, which have no table recursion and no ties between placements
    ns = rng.choices(range(1, max_s + 1), weights=range(1, max_s + 1))[0]
    no = rng.choices(range(1, max_o + 1), weights=range(1, max_o + 1))[0]
    S = rand_shape(rng, ns, style)
    oshape = rand_shape(rng, no, rng.choice([None, None, "cat", "bal"]))
    sps = rand_species_assignment(rng, S, no)
    if nfam:
        syn = rand_syntenies(rng, no, nfam, unordered=unordered)
        leaves = [{"s": s, "f": f} for s, f in zip(sps, syn)]
    else:
        leaves = [{"s": s} for s in sps]
    O = fill_object(oshape, iter(leaves))
    return {"S": S, "O": O, "costs": costs or rand_costs(rng, plain=plain)}


def exhaustive_plain_cases(max_o, max_s):
    """All (object shape, species shape, leaf assignment) up to the given leaf counts."""
    for ns in range(1, max_s + 1):
        for S in shapes(ns):
            lv = leaf_paths(S)
            for no in range(1, max_o + 1):
                for osh in shapes(no):
                    for sps in itertools.product(lv, repeat=no):
                        yield {"S": S, "O": fill_object(osh, iter([{"s": s} for s in sps]))}


def subtree_leaf_indices(shape, start=0):
    """[(node leaf-index list)] for every node of a shape, pre-order; returns (list, next index)."""
    if not shape:
        return [[start]], start + 1
    out = []
    mine = []
    idx = start
    for c in shape:
        sub, idx = subtree_leaf_indices(c, idx)
        mine += sub[0]
        out += sub
    return [mine] + out, idx


def clade_syntenies(rng, oshape, nfam, unordered=True):
    """Family content organised by clades: each family is confined to the leaves below a random
    node of the object tree (so gains happen at various depths), every leaf keeps >= 1 family."""
    nodes, n = subtree_leaf_indices(oshape)
    fams = [[] for _ in range(n)]
    for f in range(nfam):
        clade = rng.choice(nodes if rng.random() < 0.8 else [nodes[0]])
        k = rng.randint(1, len(clade))
        for i in rng.sample(clade, k):
            fams[i].append(f)
    for i in range(n):
        if not fams[i]:
            fams[i].append(rng.randrange(nfam))
    order = list(range(nfam))
    if not unordered:
        rng.shuffle(order)
    return [[f for f in order if f in set(l)] for l in fams]


def clade_case(rng, min_o=6, max_o=8, max_s=3, nfam=4, unordered=True, costs=None):
    """Larger, mostly balanced object trees over few species with clade-structured families."""
    no = rng.randint(min_o, max_o)
    S = rand_shape(rng, rng.randint(1, max_s))
    oshape = rand_shape(rng, no, rng.choice(["bal", "bal", None]))
    sps = rand_species_assignment(rng, S, no)
    syn = clade_syntenies(rng, oshape, nfam, unordered)
    O = fill_object(oshape, iter([{"s": s, "f": f} for s, f in zip(sps, syn)]))
    out = {"S": S, "O": O, "costs": costs or rand_costs(rng, plain=False)}
    if unordered:
        out["only"] = "unordered"  # 6-8 leaves: the ordered DP (2^families masks, every root order) is slow here
    return out


def sibling_inherit_case(rng, costs=None, small=False):
    """Unordered inputs built around the pattern that exercises the decoder's handling of INHERIT
    siblings: a node P whose two children L, R are both internal; a family private to the leaves of
    one child (gained there); families shared between each child and an outgroup leaf but absent
    from the other child (so each child may inherit P's content and lose later).  Randomised:
    sizes of L and R, order of the children, extra wrapping levels above P, extra random families,
    leaf species, and costs among tie-prone vectors."""
    S = rand_shape(rng, rng.randint(1, 4))
    nl, nr = (2, 2) if small else (rng.randint(2, 3), rng.randint(2, 3))
    G, F1, F2 = 0, 1, 2
    nextra = rng.randint(0, 1) if small else rng.randint(0, 2)
    def leaf(fams):
        fams = set(fams)
        for x in range(3, 3 + nextra):
            if rng.random() < 0.3:
                fams.add(x)
        return {"s": None, "f": sorted(fams)}
    priv_side = rng.choice(["L", "R", "both"])
    Ls = [leaf(([G] if priv_side in ("L", "both") else []) + [F2]) for _ in range(nl)]
    Rs = [leaf(([G + 10] if priv_side in ("R", "both") else []) + [F1]) for _ in range(nr)]
    # make sure the private family's LCA is L (resp. R): at least the two outermost leaves carry it
    def nest(ls):
        t = ls[0]
        for x in ls[1:]:
            t = [t, x] if rng.random() < 0.5 else [x, t]
        return t
    L, R = nest(Ls), nest(Rs)
    P = [L, R] if rng.random() < 0.5 else [R, L]
    out = leaf([F1, F2])
    tree = [P, out] if rng.random() < 0.5 else [out, P]
    for _ in range(rng.randint(0, 1) if small else rng.randint(0, 2)):
        extra = leaf(rng.sample([F1, F2], rng.randint(1, 2)))
        tree = [tree, extra] if rng.random() < 0.5 else [extra, tree]
    # compact family ids, assign species
    ids = {}
    lv = leaf_paths(S)
    def fix(t):
        if isinstance(t, dict):
            t["f"] = sorted(ids.setdefault(f, len(ids)) for f in t["f"])
            t["s"] = rng.choice(lv)
            return t
        return [fix(c) for c in t]
    tree = fix(tree)
    if costs is None:
        k = rng.random()
        if k < 0.4:
            costs = {"spe": 0, "dup": 1, "hgt": 1, "floss": 1, "sloss": 1}
        elif k < 0.6:
            costs = {"spe": 0, "dup": 1, "hgt": rng.choice([1, 2, "inf"]), "floss": 1, "sloss": 0}
        elif k < 0.8:
            while True:  # inside the coherent region (the solver properties are stated there)
                costs = {"spe": 0, "dup": rng.randint(1, 2), "hgt": rng.choice([1, 2, 3]), "floss": rng.randint(1, 2),
                         "sloss": rng.randint(1, 2)}
                if coherent(costs):
                    break
        else:
            costs = rand_costs(rng, plain=False)
    # "only": run the unordered solvers (and the cheap plain ones) on it; the ordered DP over 2^families masks is slow here
    return {"S": S, "O": tree, "costs": costs, "only": "unordered"}


def family_lists(nfam, ordered):
    """Every non-empty list of distinct families among range(nfam): every arrangement of every subset when
    `ordered` (mutually consistent AND inconsistent orders arise from the product), sorted subsets otherwise."""
    out = []
    for k in range(1, nfam + 1):
        for sub in itertools.combinations(range(nfam), k):
            out += [list(p) for p in itertools.permutations(sub)] if ordered else [list(sub)]
    return out


def exhaustive_labelled_cases(max_o, max_s, nfam, ordered):
    """All (object shape, species shape, leaf assignment, leaf synteny per leaf) up to the given leaf counts:
    the bounded-exhaustive scope of C02 / C03 ("every leaf assignment, every family subset per leaf in any
    mutually (in)consistent order")."""
    fl = family_lists(nfam, ordered)
    for ns in range(1, max_s + 1):
        for S in shapes(ns):
            lv = leaf_paths(S)
            for no in range(1, max_o + 1):
                for osh in shapes(no):
                    for sps in itertools.product(lv, repeat=no):
                        for syn in itertools.product(fl, repeat=no):
                            leaves = [{"s": s, "f": list(f)} for s, f in zip(sps, syn)]
                            yield {"S": S, "O": fill_object(osh, iter(leaves))}
