"""Engine shared by the solver properties C01-C05 (and reused by C08-C10):
runs the real algorithms in-process, the Lean models and the Lean
specification on the same canonical cases and judges them per property."""
import copy
import json

from . import gen
from .common import load_known
from .sr import PLAIN, run_algo, solution_key

MODE = {
    "exh": "plain", "lca": "plain", "thl": "plain",
    "ext_spfs": "ordered", "base_spfs": "ordered",
    "superdtl": "unordered", "base_uspfs": "unordered",
}
BASE = {"lca", "base_spfs", "base_uspfs"}
POLICY_ALGOS = [a for a in MODE if a != "lca"]
# solvers whose ANY policy is modelled (Model/LabelDPAny.lean): the set of outputs reachable under ANY
# over every offering order is `c05_reach` (C05_any_reach_*: it contains every ANY result)
REACH_ALGOS = {"thl", "ext_spfs", "base_spfs", "superdtl", "base_uspfs"}


def full_costs(case):
    c = {"spe": 0, "dup": 1, "hgt": 1, "floss": 1, "sloss": 1}
    c.update(case.get("costs", {}))
    return c


def lean_case(case):
    d = {"S": case["S"], "O": case["O"], "costs": full_costs(case)}
    if case.get("root") is not None:
        d["root"] = case["root"]
    return d


def incoherent(case, algo):
    return not gen.coherent(full_costs(case), plain=(MODE[algo] == "plain"))


def keys(sols):
    return sorted(solution_key(s) for s in sols)


def strip(r):
    r = dict(r)
    r.pop("outs", None)
    return r


class Run:
    """Everything known about one (case, algo)."""

    def __init__(self, case, algo):
        self.case, self.algo = case, algo
        self.mode = MODE[algo]
        self.impl_all = self.impl_any = self.model = self.spec = None
        self.valid_all = self.valid_any = None
        self.spec_canon = None
        self.reach = None


def execute(ctx, items, want_any=True, want_spec=True):
    """items: list of (case, algo).  Returns list of Run with all fields filled."""
    runs = []
    reqs = []
    from . import sr as _sr

    for case, algo in items:
        if _sr.TIMED_OUT:
            # a solver call did not return (sr.watchdog): judge what was obtained so far, ask for nothing more
            break
        r = Run(case, algo)
        # present="auto": node names / family names / the infinite-cost object vary with the case (sr.presentation)
        r.impl_all = strip(run_algo(case, algo, "all", present="auto"))
        if want_any and algo != "lca":
            r.impl_any = strip(run_algo(case, algo, "any", present="auto"))
        lc = lean_case(case)
        reqs.append({"op": "solve", "algo": algo, **lc})
        if want_spec:
            reqs.append({"op": "spec_opt", "mode": r.mode, "keep": True, "base": algo in BASE, **lc})
        if r.impl_any is not None and algo in REACH_ALGOS:
            reqs.append({"op": "c05_reach", "algo": algo, **lc})
        for tag, out in (("all", r.impl_all), ("any", r.impl_any)):
            if out and "sols" in out:
                for s in out["sols"]:
                    vreq = {"op": "valid", "mode": r.mode, "O": case["O"], "sol": s}
                    if case.get("root") is not None and r.mode == "ordered":
                        vreq["root"] = case["root"]
                    reqs.append(vreq)
        runs.append(r)
    outs = iter(ctx.driver.parallel(reqs))
    for r in runs:
        r.model = next(outs)
        if want_spec:
            r.spec = next(outs)
        if r.impl_any is not None and r.algo in REACH_ALGOS:
            r.reach = next(outs)
        for tag, out in (("all", r.impl_all), ("any", r.impl_any)):
            if out and "sols" in out:
                flags = [next(outs) for _ in out["sols"]]
                setattr(r, "valid_" + tag, flags)
    # canonical filter of the spec's optimal set (unordered solvers, C05)
    creqs, owners = [], []
    for r in runs:
        if want_spec and r.mode == "unordered":
            for s in r.spec["sols"]:
                creqs.append({"op": "canonical_un", "O": r.case["O"], "sol": s})
                owners.append(r)
    couts = ctx.driver.parallel(creqs)
    for r in runs:
        if want_spec and r.mode == "unordered":
            r.spec_canon = []
    i = 0
    for r in runs:
        if want_spec and r.mode == "unordered":
            for s in r.spec["sols"]:
                if couts[i]:
                    r.spec_canon.append(s)
                i += 1
    return runs


def spec_cost(r):
    """The optimum according to the specification; None when no valid solution exists."""
    if r.spec["cost"] == "inf" and not r.spec["sols"]:
        return None
    return r.spec["cost"]


def tie(res, r):
    """Correspondence: implementation vs model (cost, `all` set; `any` by membership)."""
    ia, m = r.impl_all, r.model
    if "err" in ia:
        res.tie_broken(f"{r.algo}: implementation raises {ia['err']}, model returns", r.case, m["cost"], ia)
        return
    if ia["cost"] != m["cost"] or keys(ia["sols"]) != keys(m["sols"]):
        res.tie_broken(f"{r.algo}: (cost, set of solutions) under 'all'", r.case,
                       {"cost": m["cost"], "n": len(m["sols"])}, {"cost": ia["cost"], "n": len(ia["sols"])})
    if r.impl_any is not None and "err" not in r.impl_any:
        ka = keys(r.impl_any["sols"])
        if r.reach is not None:
            # the ANY model: the result is ONE output reachable under ANY for some offering order, and it is
            # empty exactly when the ALL result is (C05_any_card_*, C05_any_empty_iff_*, C05_any_reach_*);
            # this relation holds in every cost region (also outside the coherent one)
            if not set(ka) <= set(keys(r.reach["sols"])):
                res.tie_broken(f"{r.algo}: 'any' solution is not reachable in the ANY model (c05_reach)", r.case,
                               {"reach": len(r.reach["sols"])}, ka[:1])
            elif len(ka) > 1 or (not ka) != (not m["sols"]):
                res.tie_broken(f"{r.algo}: 'any' returns {len(ka)} solutions, model 'all' has {len(m['sols'])}",
                               r.case)
        elif not set(ka) <= set(keys(m["sols"])):
            res.tie_broken(f"{r.algo}: 'any' solution not in the model's 'all' set", r.case)


def finding_of(r):
    return "F-COHERENCE" if incoherent(r.case, r.algo) else None


def judge_optimal(res, r, label):
    """C01/C02/C03: no failure, every returned solution valid, cost = optimum."""
    ia = r.impl_all
    for out, flags, pol in ((ia, r.valid_all, "all"), (r.impl_any, r.valid_any, "any")):
        if out is None:
            continue
        if "err" in out:
            res.violation(f"{r.algo} ({pol}) fails on a well-formed input: {out['err']} {out.get('msg','')}",
                          {"case": r.case, "algo": r.algo, "policy": pol})
            return
        if flags is not None and not all(flags):
            bad = [s for s, f in zip(out["sols"], flags) if not f][0]
            res.violation(f"{r.algo} ({pol}) returns an invalid solution",
                          {"case": r.case, "algo": r.algo, "policy": pol}, observed=bad)
            return
        sc = spec_cost(r)
        if out["sols"] and out["cost"] != sc:
            res.violation(
                f"{r.algo} ({pol}) returns cost {out['cost']}, the minimum over all valid solutions is {sc}",
                {"case": r.case, "algo": r.algo, "policy": pol}, expected=sc, observed=out["cost"],
                finding=finding_of(r))
            return
        if not out["sols"] and sc is not None:
            res.violation(f"{r.algo} ({pol}) returns nothing although a valid solution of cost {sc} exists",
                          {"case": r.case, "algo": r.algo, "policy": pol}, expected=sc, finding=finding_of(r))
            return


def judge_valid(res, r):
    """C04: every returned solution is valid and complete and has finite cost."""
    for out, flags, pol in ((r.impl_all, r.valid_all, "all"), (r.impl_any, r.valid_any, "any")):
        if out is None:
            continue
        if "err" in out:
            # a failure is C01-C03's business unless it is the incomplete-mapping symptom
            if out["err"].startswith("cost:") or out["err"] in ("KeyError",):
                res.violation(f"{r.algo} ({pol}) returns an incomplete mapping ({out['err']})",
                              {"case": r.case, "algo": r.algo, "policy": pol})
            elif out["err"] == "Timeout":
                res.violation(f"{r.algo} ({pol}) returns nothing: {out.get('msg', '')}",
                              {"case": r.case, "algo": r.algo, "policy": pol})
            continue
        if not all(flags):
            bad = [s for s, f in zip(out["sols"], flags) if not f][0]
            res.violation(f"{r.algo} ({pol}) returns an invalid solution",
                          {"case": r.case, "algo": r.algo, "policy": pol}, observed=bad)
        elif out["sols"] and (out["cost"] == "inf" or isinstance(out["cost"], list)):
            res.violation(f"{r.algo} ({pol}) returns solutions of cost {out['cost']}",
                          {"case": r.case, "algo": r.algo, "policy": pol})


def judge_policies(res, r):
    """C05: ALL = exactly the optimal set, ANY = one member of it."""
    ia, an = r.impl_all, r.impl_any
    if "err" in ia or (an is not None and "err" in an):
        return  # C01-C03 report failures
    want = r.spec_canon if r.mode == "unordered" else r.spec["sols"]
    info = {"case": r.case, "algo": r.algo}
    f = finding_of(r)
    if isinstance(ia["cost"], list):
        res.violation(f"{r.algo}: returned solutions have different costs {ia['cost']}", info, finding=f)
        return
    k = keys(ia["sols"])
    if len(set(k)) != len(k):
        res.violation(f"{r.algo}: 'all' returns a solution twice", info, finding=f)
        return
    if k != keys(want):
        miss = sorted(set(keys(want)) - set(k))
        extra = sorted(set(k) - set(keys(want)))
        res.violation(
            f"{r.algo}: 'all' returns {len(k)} solutions, the optimal set has {len(want)} "
            f"(missing {len(miss)}, extra {len(extra)})", info,
            expected=(miss[:1] or None), observed=(extra[:1] or None), finding=f)
        return
    if an is not None:
        ka = keys(an["sols"])
        if (len(ka) != 1 and k) or (ka and not k) or not set(ka) <= set(k):
            res.violation(f"{r.algo}: 'any' returns {len(ka)} solution(s), not exactly one member of the 'all' set",
                          info, observed=ka[:2], finding=f)
            return
        if ka and an["cost"] != ia["cost"]:
            res.violation(f"{r.algo}: 'any' cost {an['cost']} differs from 'all' cost {ia['cost']}", info, finding=f)


# ---------------------------------------------------------------------------
# generators


def plain_case(ctx, rng, max_o=5, max_s=6):
    c = gen.rand_case(rng, max_o, max_s, 0, plain=True)
    return c


def ordered_case(ctx, rng, max_o=4, max_s=4, max_f=3):
    c = gen.rand_case(rng, max_o, max_s, rng.randint(1, max_f), plain=False)
    if rng.random() < 0.3:
        c["costs"] = label_costs(rng)
    if rng.random() < 0.25:
        # prescribed root order: a common supersequence of the leaves if one exists
        from itertools import permutations

        fams = sorted({f for _, l in _leaves(c["O"]) for f in l["f"]})
        syns = [l["f"] for _, l in _leaves(c["O"])]
        sup = [p for p in permutations(fams) if all(_subseq(s, p) for s in syns)]
        if sup:
            c["root"] = list(rng.choice(sup))
            if rng.random() < 0.5 and not isinstance(c["O"], dict):
                # a STRICT supersequence: families that no leaf carries, inserted anywhere (between two
                # families such a family can be lost together with a neighbour as one run)
                extra = max(fams) + 1
                for _ in range(rng.randint(1, 2)):
                    c["root"].insert(rng.randint(0, len(c["root"])), extra)
                    extra += 1
    return c


def label_costs(rng):
    """Coherent cost vectors with a positive (often large) segmental-loss cost and cheap transfers:
    the region where the choice of labels, not of species, decides the optimum."""
    while True:
        cs = {"spe": rng.choice([0, 0, 1]), "dup": rng.randint(0, 3), "hgt": rng.choice([0, 1, 1, 2, 3]),
              "floss": rng.randint(0, 3), "sloss": rng.randint(1, 3)}
        if gen.coherent(cs):
            return cs


def unordered_case(ctx, rng, max_o=5, max_s=4, max_f=4):
    k = rng.random()
    if k < 0.08:
        return gen.sibling_inherit_case(rng, None if rng.random() < 0.7 else label_costs(rng), small=True)
    if k < 0.18:
        # both children of some node internal, families confined to clades (gains at several depths)
        costs = None if rng.random() < 0.5 else {"spe": 0, "dup": 1, "hgt": 1, "floss": 1, "sloss": 1}
        return gen.clade_case(rng, 6, 7, 2, rng.randint(3, 4), True, costs)
    if k < 0.55:
        return gen.rand_case(rng, max_o, max_s, rng.randint(1, max_f), plain=False, unordered=True)
    # deeper object trees over few species, several families, label-driven costs
    c = gen.rand_case(rng, max_o + 1, max(2, max_s - 1), rng.randint(2, max_f), plain=False, unordered=True)
    if rng.random() < 0.6:
        c["costs"] = label_costs(rng)
    return c


def _leaves(O, p=""):
    if isinstance(O, dict):
        yield p, O
    else:
        for i, c in enumerate(O):
            yield from _leaves(c, p + str(i))


def _subseq(a, b):
    it = iter(b)
    return all(x in it for x in a)


def nontrivial(case):
    n = sum(1 for _ in _leaves(case["O"]))
    return n >= 3 and len(gen.leaf_paths(case["S"])) >= 2


def c_is_inf(case):
    return full_costs(case)["hgt"] == "inf"


def describe(res, case, algo):
    n = sum(1 for _ in _leaves(case["O"]))
    res.dist[f"{algo}:o{n}s{len(gen.leaf_paths(case['S']))}"] += 1
    from .sr import presentation
    p = presentation(case)
    res.dist["presentation: names=%s" % p["names"]] += 1
    if p["fams"] != "letters" and any("f" in l for _, l in _leaves(case["O"])):
        res.dist["presentation: multi-character family names, one object per occurrence"] += 1
    if p["float_inf"] and c_is_inf(case):
        res.dist["presentation: hgt=float('inf')"] += 1
    c = full_costs(case)
    if c["hgt"] == "inf":
        res.dist["hgt=inf"] += 1
    if c["sloss"] == 0:
        res.dist["sloss=0"] += 1
    if case.get("root") is not None:
        fams = {f for _, l in _leaves(case["O"]) for f in l.get("f", [])}
        res.dist["prescribed root" + (" (strict supersequence)" if set(case["root"]) - fams else "")] += 1


# ---------------------------------------------------------------------------
# shrinking of canonical cases


def shrink_candidates(case):
    """Smaller variants of a canonical case: drop an object leaf, lower a cost,
    drop a family, drop an unused species cherry."""
    out = []

    def drop_leaf(O):
        if isinstance(O, dict):
            return
        for i, c in enumerate(O):
            if isinstance(O[1 - i], (dict, list)) and len(O) == 2:
                yield O[1 - i]  # replace this node by the sibling
        for i, c in enumerate(O):
            for sub in drop_leaf(c):
                new = list(O)
                new[i] = sub
                yield new

    for O2 in drop_leaf(case["O"]):
        c2 = copy.deepcopy(case)
        c2["O"] = O2
        if isinstance(O2, dict):
            c2.pop("root", None)
        out.append(c2)
    costs = full_costs(case)
    for k, v in costs.items():
        if v == "inf" or v == 0:
            continue
        c2 = copy.deepcopy(case)
        c2["costs"] = dict(costs)
        c2["costs"][k] = v - 1
        out.append(c2)
    fams = sorted({f for _, l in _leaves(case["O"]) for f in l.get("f", [])})
    for f in fams:
        c2 = copy.deepcopy(case)
        ok = True
        for _, l in _leaves(c2["O"]):
            if "f" in l:
                l["f"] = [x for x in l["f"] if x != f]
                ok = ok and bool(l["f"])
        if c2.get("root"):
            c2["root"] = [x for x in c2["root"] if x != f]
        if ok:
            out.append(c2)
    return out


def shrink(ctx, violation, fails, limit=60):
    """Greedy shrinking; `fails(case)` re-runs the judgement on one case."""
    inp = violation["input"]
    if isinstance(inp, dict) and ("history" in inp or "other_costs" in inp):
        # a history on one object is replayed as it is: `fails` judges FRESH inputs (another judgement), so it could
        # only replace the recorded history by a different violation, never make it smaller
        return violation
    case = inp["case"] if "case" in inp else inp
    steps = 0
    improved = True
    while improved and steps < limit:
        improved = False
        for cand in shrink_candidates(case):
            steps += 1
            try:
                v = fails(cand)
            except Exception:
                v = None
            if v:
                case, violation, improved = cand, v, True
                break
    return violation


def known_witnesses(prop, algos):
    """(case, algo, finding id) for the witnesses of recorded known findings."""
    out = []
    for k in load_known():
        if k.get("status") == "known" and prop in k.get("properties", []):
            for w in k.get("witnesses", []):
                for a in algos:
                    case = copy.deepcopy(w)
                    out.append((case, a, k["id"]))
    return out


# ---------------------------------------------------------------------------
# histories on one input object (the properties quantify over histories too; a pure model has no state)


def inplace_history(res, case, other_costs, algo, policies=("all", "any"), what_prefix=""):
    """Solve; change `inp.costs` IN PLACE (as the package's own tests do); solve; change back; solve — on ONE input
    object.  Each result must be what a FRESH input with the same costs gives (cost; under `all` also the set).
    Returns False after recording a violation."""
    import contextlib
    import copy
    import io

    from superrec2.utils.dynamic_programming import RetentionPolicy

    from .sr import PLAIN, algorithms, build_input, canon_solution, costs_of, enc_cost, solution_key

    from . import sr as _sr

    if _sr.TIMED_OUT:
        return False
    v2 = copy.deepcopy(case)
    v2["costs"] = other_costs
    for pol in policies:
        inp = build_input(case, force_plain=(algo in PLAIN))
        original = dict(inp.costs)
        changed = costs_of({"costs": other_costs})
        for costs, ref, what in ((original, case, "first call on the object"),
                                 (changed, v2, "costs of the input object changed in place"),
                                 (original, case, "costs of the input object changed back in place")):
            inp.costs.clear()
            inp.costs.update(costs)
            try:
                with _sr.watchdog(), contextlib.redirect_stderr(io.StringIO()):
                    rs = [algorithms()[algo](inp)] if algo == "lca" else \
                        list(algorithms()[algo](inp, getattr(RetentionPolicy, pol.upper())))
                cs = sorted({enc_cost(o.cost()) for o in rs}, key=str)
                got = {"cost": cs[0] if len(cs) == 1 else (None if not cs else cs),
                       "sols": sorted((canon_solution(o) for o in rs), key=solution_key)}
            except _sr.SolverTimeout:
                _sr.TIMED_OUT.append((algo, pol))
                got = {"err": "Timeout"}
            except Exception as e:  # noqa
                got = {"err": type(e).__name__}
            want = strip(run_algo(ref, algo, pol))
            res.dist["history: in-place cost change on one input object"] += 1
            if ("err" in got) != ("err" in want):
                res.violation(f"{what_prefix}{algo} ({pol}): {what}: {got.get('err')} vs a fresh input {want.get('err')}",
                              {"case": case, "algo": algo, "policy": pol, "history": [full_costs(case), other_costs]})
                return False
            if "err" in got:
                continue
            if got["cost"] != want["cost"] or (pol == "all" and keys(got["sols"]) != keys(want["sols"])):
                res.violation(
                    f"{what_prefix}{algo} ({pol}): after '{what}' the result (cost {got['cost']}, {len(got['sols'])} solutions) "
                    f"differs from a fresh input with the same costs (cost {want['cost']}, {len(want['sols'])} solutions)",
                    {"case": case, "algo": algo, "policy": pol, "history": [full_costs(case), other_costs]})
                return False
    return True


def replay_inplace(inp):
    """Replays a recorded in-place history (`inplace_history`) on the current code; returns (ok, message)."""
    from .common import Result

    r = Result()
    if "history" not in inp:
        # C09 records {"case", "algo", "other_costs"}: both policies, as in the original run
        inp = dict(inp, history=[full_costs(inp["case"]), dict(full_costs(inp["case"]), **inp["other_costs"])])
        inplace_history(r, inp["case"], inp["history"][1], inp["algo"])
    else:
        inplace_history(r, inp["case"], inp["history"][1], inp["algo"], policies=(inp.get("policy", "all"),))
    ok = not r.concrete
    return ok, ("ok: the recorded history gives the results of fresh inputs" if ok else "still fails: " + r.concrete[0]["what"])
